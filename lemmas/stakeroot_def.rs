// C07/C13: the stake commitment (StakeSet::pre_tip911): the sparse tree holding, under hash(stdcode(txhash)), the stdcode of each stake document
// (spec_root_stakes is declared uninterpreted in lemmas/header.rs for the units that only pass it along)
pub open spec fn k_stake(h: TxHash) -> Seq<u8> { h1(h.ser()).0@ }
/// A-HASH + A-SER: different transaction hashes get different tree keys
pub broadcast axiom fn axiom_stake_key_inj(a: TxHash, b: TxHash) requires #[trigger] k_stake(a) == #[trigger] k_stake(b) ensures a == b;
pub open spec fn stake_with_key(m: Map<TxHash, StakeDoc>, n: int, ks: Seq<TxHash>, key: Seq<u8>) -> bool { exists|i: int| 0 <= i < n && k_stake(#[trigger] ks[i]) == key }
/// the raw tree after inserting the stakes ks[0..n) of m into the empty tree
pub open spec fn stakes_raw_upto(m: Map<TxHash, StakeDoc>, ks: Seq<TxHash>, n: int) -> IMap<Seq<u8>, Seq<u8>> {
    IMap::new(|key: Seq<u8>| true, |key: Seq<u8>| if stake_with_key(m, n, ks, key) { m[ks[choose|i: int| 0 <= i < n && k_stake(#[trigger] ks[i]) == key]].ser() } else { Seq::<u8>::empty() })
}
/// the raw tree of a stake map: key k_stake(h) -> stdcode(m[h]) for every stake, everything else absent
pub open spec fn stakes_raw(m: Map<TxHash, StakeDoc>) -> IMap<Seq<u8>, Seq<u8>> {
    IMap::new(|key: Seq<u8>| true, |key: Seq<u8>| if exists|h: TxHash| m.contains_key(h) && #[trigger] k_stake(h) == key { m[choose|h: TxHash| m.contains_key(h) && #[trigger] k_stake(h) == key].ser() } else { Seq::<u8>::empty() })
}
pub open spec fn spec_root_stakes(m: Map<TxHash, StakeDoc>) -> HashVal { HashVal(novasmt::root_of(stakes_raw(m))) }
pub proof fn lemma_stakes_raw_step(m: Map<TxHash, StakeDoc>, ks: Seq<TxHash>, n: int)
    requires 0 <= n < ks.len(), ks.no_duplicates(), forall|i: int| 0 <= i < ks.len() ==> m.contains_key(#[trigger] ks[i])
    ensures stakes_raw_upto(m, ks, n + 1) =~= stakes_raw_upto(m, ks, n).insert(k_stake(ks[n]), m[ks[n]].ser())
{
    broadcast use axiom_stake_key_inj;
    let a = stakes_raw_upto(m, ks, n + 1); let b = stakes_raw_upto(m, ks, n).insert(k_stake(ks[n]), m[ks[n]].ser());
    assert forall|key: Seq<u8>| a[key] == b[key] by {
        if key == k_stake(ks[n]) {
            assert(stake_with_key(m, n + 1, ks, key));
            let i = choose|i: int| 0 <= i < n + 1 && k_stake(#[trigger] ks[i]) == key; assert(ks[i] == ks[n]);
        } else if stake_with_key(m, n, ks, key) {
            let i = choose|i: int| 0 <= i < n && k_stake(#[trigger] ks[i]) == key; assert(0 <= i < n + 1 && k_stake(ks[i]) == key); assert(stake_with_key(m, n + 1, ks, key));
            let j = choose|j: int| 0 <= j < n + 1 && k_stake(#[trigger] ks[j]) == key; assert(ks[i] == ks[j]);
        } else {
            if stake_with_key(m, n + 1, ks, key) { let j = choose|j: int| 0 <= j < n + 1 && k_stake(#[trigger] ks[j]) == key; if j < n { assert(stake_with_key(m, n, ks, key)); } }
        }
    }
}
pub proof fn lemma_stakes_raw_all(m: Map<TxHash, StakeDoc>, ks: Seq<TxHash>)
    requires is_enum(m, ks)
    ensures stakes_raw_upto(m, ks, ks.len() as int) =~= stakes_raw(m)
{
    broadcast use axiom_stake_key_inj;
    let a = stakes_raw_upto(m, ks, ks.len() as int); let b = stakes_raw(m);
    assert forall|key: Seq<u8>| a[key] == b[key] by {
        if stake_with_key(m, ks.len() as int, ks, key) {
            let i = choose|i: int| 0 <= i < ks.len() && k_stake(#[trigger] ks[i]) == key; assert(ks.contains(ks[i])); assert(m.contains_key(ks[i]) && k_stake(ks[i]) == key);
            let h = choose|h: TxHash| m.contains_key(h) && #[trigger] k_stake(h) == key; assert(h == ks[i]);
        } else if exists|h: TxHash| m.contains_key(h) && #[trigger] k_stake(h) == key {
            let h = choose|h: TxHash| m.contains_key(h) && #[trigger] k_stake(h) == key; assert(ks.contains(h)); let i = choose|i: int| 0 <= i < ks.len() && ks[i] == h; assert(k_stake(ks[i]) == key);
        }
    }
}
