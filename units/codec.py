from spec import *
from _contracts import *

L = "lib/melvm/src/lib.rs"
O = "lib/melvm/src/opcode.rs"
UNIT = Unit(
    name="codec", lemma_obs=['lemma_roundtrip', 'lemma_dec_then_enc'], uses=None,
    prelude=["core.rs", "raw.rs", "melvm_types.rs"],
    lemmas=["sums.rs", "weight.rs", "codec.rs"],
    items=[
        TypeItem(O, "enum", "OpCode", derive="#[derive(Clone)]"),
        Raw("""#[verifier::external_body] pub struct DecodeError { _p: u8 }
#[verifier::external_body] pub struct EncodeError { _p: u8 }
impl core::fmt::Debug for EncodeError { #[verifier::external_body] fn fmt(&self, f: &mut core::fmt::Formatter<'_>) -> core::fmt::Result { unimplemented!() } }
use std::sync::Arc;"""),
        TypeItem(L, "struct", "Covenant", subst=[("(Arc<Vec<OpCode>>)", "(pub Arc<Vec<OpCode>>)")]),
        Raw("impl View for Covenant { type V = Seq<OpCode>; open spec fn view(&self) -> Seq<OpCode> { (*self.0)@ } }"),
        Fn(O, "decode", impl="OpCode", mode="assume", sig_subst=[("decode<T: std::io::Read>(input: &mut T)", "decode(input: &mut &[u8])")],
           ensures=[C("k", "match spec_decode1(old(input)@) { Some((op, n)) => res == Ok::<OpCode, DecodeError>(op) && n <= old(input)@.len() && final(input)@ == old(input)@.skip(n as int), None => res is Err }", "C12")]),
        Fn(O, "encode", impl="OpCode", mode="assume",
           ensures=[C("k", "match spec_encode1(*self) { Some(e) => res is Ok && final(output)@ == old(output)@ + e, None => res is Err && final(output)@ == old(output)@ }", "C12")]),
        Fn(O, "opcodes_weight", mode="assume", ensures=[C("value", "res as int == spec_weight(opcodes@)", "C11")]),
        Fn(L, "from_bytes", impl="Covenant", home="C12", implicit_props=("C09", "C12"),
           ensures=[C("whole", "match dec_all(b@) { Some(ops) => res is Ok && res->Ok_0@ == ops, None => res is Err }", "C12"),
                    C("reencodes", "res is Ok ==> enc_all(res->Ok_0@) == Some(b@)", "C12")],
           rewrites=[("MUTPARAM", "b", "cur"), ("SUB", "Ok(Self(opcodes.into()))", "Ok(Self(Arc::new(opcodes)))")],
           injects=[Inject("before_tail", "proof { if dec_all(b@) is Some { lemma_dec_then_enc(b@); } }")],
           loops=[Loop(0, decreases="cur@.len()",
               body_entry="let ghost bb = cur@; let ghost ops0 = opcodes@; proof { broadcast use axiom_k1; assert(bb.len() > 0); if spec_decode1(bb) is None { assert(dec_all(bb) is None); } }",
               body_exit="""proof { broadcast use axiom_k1; let op = spec_decode1(bb)->Some_0.0; let n = spec_decode1(bb)->Some_0.1;
                   assert(1 <= n <= bb.len()); assert(cur@ == bb.skip(n as int)); assert(opcodes@ == ops0.push(op));
                   if dec_all(cur@) is Some { let r = dec_all(cur@)->Some_0; assert(dec_all(bb) == Some(seq![op] + r)); assert(ops0 + (seq![op] + r) =~= ops0.push(op) + r); }
                   else { assert(dec_all(bb) is None); } }""",
               invariants=[
               C("progress", """(dec_all(b@) is Some <==> dec_all(cur@) is Some) && (dec_all(b@) is Some ==> dec_all(b@)->Some_0 == opcodes@ + dec_all(cur@)->Some_0)""", "C12"),
           ])]),
        Fn(L, "to_bytes", impl="Covenant", home="C12", implicit_props=("C09", "C12"), uses="group_core_axioms",
           requires=[C("encodable", "enc_all(self@) is Some", note="every PushB literal has at most 255 bytes (true of every covenant obtained from from_bytes)")],
           ensures=[C("bytes", "Some(res@) == enc_all(self@)", "C12")],
           loops=[Loop(0, binder="it", invariants=[
               C("prefix", "refs_of(it.seq(), self@) && enc_all(self@) is Some && enc_all(self@.take(it.index@ as int)) == Some(out@)", "C12"),
           ], body_entry="proof { let j = it.index@ as int; lemma_enc_take(self@, j + 1); assert(self@.take(j + 1).last() == self@[j]); assert(*op == self@[j]); assert(self@.take(j + 1).drop_last() =~= self@.take(j)); }",
              body_exit="proof { let j = it.index@ as int; assert(self@.take(j + 1) =~= self@.take(j).push(self@[j])); lemma_enc_all_push(self@.take(j), self@[j]); lemma_enc_take(self@, j + 1); }")],
           injects=[Inject(("before", "for op in"), "proof { assert(self@.take(0) =~= Seq::<OpCode>::empty()); }"),
                    Inject("before_tail", "proof { assert(self@.take(self@.len() as int) =~= self@); }")]),
        Fn(L, "weight", impl="Covenant", home="C11", implicit_props=("C09", "C11"), ensures=[C("value", "res as int == spec_weight(self@)", "C11", "C05")]),
        Fn(L, "hash", impl="Covenant", home="C12", implicit_props=("C09", "C12"),
           requires=[C("encodable", "enc_all(self@) is Some")],
           ensures=[C("hash", "res == Address(h1(enc_all(self@)->Some_0))", "C12", "C04")]),
        Fn(L, "covenant_weight_from_bytes", home="C05", implicit_props=("C09", "C05", "C11"),
           ensures=[C("weight", "res as int == (match dec_all(b@) { Some(ops) => spec_weight(ops), None => 0 })", "C05", "C11",
                      note="the weight a transaction is charged for a covenant: the weight of the decoded program, 0 for bytes that do not decode"),
                    C("named", "res as nat == spec_cov_weight_b(b@)", "C05", note="the name under which the other units (apply, batch, deptx) use this result")],
           injects=[Inject("entry", "proof { axiom_cov_weight_def(b@); }")],
           closures=[Closure(0, "b: Covenant", "(r: u128)", ensures=[C("w", "r as int == spec_weight(b@)", "C05")])]),
    ],
)
