#!/bin/sh
# usage: seedunit.sh <patch.diff> <unit...>  -- dev helper: apply a patch in the scratch worktree /tmp/mutw and run the base file of the given units against it
[ -d /tmp/mutw ] || git -C /repo worktree add -q --detach /tmp/mutw HEAD
git -C /tmp/mutw checkout -q --detach $(git -C /repo rev-parse HEAD); git -C /tmp/mutw checkout -q -- .
p=$1; shift
git -C /tmp/mutw apply $p || { echo "PATCH DOES NOT APPLY"; exit 3; }
for u in "$@"; do VERIF_GEN=/tmp/gen_mutw VERIF_REPO=/tmp/mutw python3 /verif/engine/run1.py $u 6 2>&1 | grep -v "^WARNING" | cut -c1-260 | head -14; done
git -C /tmp/mutw checkout -q -- .
