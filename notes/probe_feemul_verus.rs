use vstd::prelude::*;
verus! {

pub assume_specification [i64::unsigned_abs] (x: i64) -> (r: u64)
    ensures r as int == (if x >= 0 { x as int } else { -(x as int) });

pub struct ProposerAction { pub fee_multiplier_delta: i8 }
pub struct UnsealedState { pub fee_multiplier: u128 }

pub open spec fn trunc_div(p: int, q: int) -> int { if p >= 0 { p / q } else { -((-p) / q) } }
pub open spec fn spec_max_movement(fm: u128, after: bool) -> int {
    let m = ((fm >> 7) as i64) as int;
    if after && m < 2 { 2 } else { m }
}

proof fn lemma_shr7(x: u128)
    requires x < 0x400000000000000000u128
    ensures (x >> 7) < 0x8000000000000000u128, (x >> 7) == x / 128, ((x >> 7) as i64) as int == (x / 128) as int
{
    assert((x >> 7) < 0x8000000000000000u128 && (x >> 7) == x / 128) by (bit_vector) requires x < 0x400000000000000000u128;
}

impl UnsealedState {
    fn move_action_fee_multiplier(&mut self, after_tip_901: bool, action: ProposerAction)
        requires 2 <= old(self).fee_multiplier < 0x8000000000000000u128, // 2^63
        ensures
            final(self).fee_multiplier as int == old(self).fee_multiplier as int + trunc_div(spec_max_movement(old(self).fee_multiplier, after_tip_901) * (action.fee_multiplier_delta as int), 128),
    {
        proof { lemma_shr7(self.fee_multiplier); }
        let max_movement = if after_tip_901 {
            ((self.fee_multiplier >> 7) as i64).max(2)
        } else {
            (self.fee_multiplier >> 7) as i64
        };
        proof {
            let d = action.fee_multiplier_delta as int;
            let m = max_movement as int;
            assert(0 <= m <= 0x100000000000000 && m <= self.fee_multiplier / 128 || m == 2);
            assert(-128 * m <= m * d <= 127 * m) by (nonlinear_arith) requires 0 <= m, -128 <= d <= 127;
        }
        let scaled_movement = max_movement * action.fee_multiplier_delta as i64 / 128;
        if scaled_movement >= 0 {
            self.fee_multiplier += scaled_movement as u128;
        } else {
            self.fee_multiplier -= scaled_movement.unsigned_abs() as u128;
        }
    }
}
}
fn main() {}
