from spec import *
from _contracts import *

S = "src/state.rs"
SS = "lib/tip911-stakeset/src/lib.rs"
PRESENT_PROOF = """proof {
    let ks = derefseq(__c0@);
    lemma_present(self.0.stakes@, my_epoch, ks);
    lemma_fsum_map_eq(__c1@, ks, |x: u128| x as int, votes_of(self.0.stakes@, my_epoch));
    assert(ks.to_set() =~= cproof@.dom());
}"""
UNIT = Unit(
    name="confirm", lemma_obs=['lemma_present_monotone', 'lemma_present', 'lemma_two_thirds'],
    prelude=["core.rs", "raw.rs", "iter.rs", "crypto.rs", "state_abs.rs"],
    lemmas=["sums.rs", "coinsview.rs", "stakes.rs", "confirm.rs", "tips.rs", "header.rs", "txroot_opaque.rs", "seal_opaque.rs"],
    items=[
        TypeItem(S, "struct", "UnsealedState"),
        TypeItem(S, "struct", "SealedState", subst=[("(UnsealedState<C>, Option<ProposerAction>)", "(pub UnsealedState<C>, pub Option<ProposerAction>)")]),
        TypeItem(S, "struct", "ConfirmedState", subst=[("state:", "pub state:"), ("cproof:", "pub cproof:")]),
        Raw("impl<C: ContentAddrStore> Clone for SealedState<C> { #[verifier::external_body] fn clone(&self) -> (r: Self) ensures r == *self { unimplemented!() } }"),
        Fn(SS, "votes", impl="StakeSet", mode="assume", **ss_votes()),
        Fn(SS, "total_votes", impl="StakeSet", mode="assume", **ss_total_votes()),
        Fn(S, "header", impl="SealedState", mode="assume", **st_header_full()),
        Fn(S, "confirm", impl="SealedState", home="C14", implicit_props=("C09", "C14"),
           requires=[C("fits", "spec_staked_total(self.0.stakes@) <= u128::MAX", note="C09 envelope: total staked SYM fits in u128"),
                     C("inv", "chain_ok(self.0) && txs_keyed(self.0.transactions@)", note="invariants of a sealed state (preserved by apply_block: clause inv_next), needed to compute its header")],
           ensures=[
               C("sigs", "res is Some ==> forall|k: Ed25519PK| cproof@.contains_key(k) ==> sig_ok(k, spec_header_hash(spec_header(self.0)).0@, #[trigger] cproof@[k]@)", "C14"),
               C("supermajority", """(forall|k: Ed25519PK| cproof@.contains_key(k) ==> sig_ok(k, spec_header_hash(spec_header(self.0)).0@, #[trigger] cproof@[k]@))
                     && 3 * spec_present(self.0.stakes@, (self.0.height.0 / 200000) as u64, cproof@.dom()) > 2 * spec_votes(self.0.stakes@, (self.0.height.0 / 200000) as u64, None)
                     ==> res is Some""", "C14"),
               C("minority", """3 * spec_present(self.0.stakes@, (self.0.height.0 / 200000) as u64, cproof@.dom()) < 2 * spec_votes(self.0.stakes@, (self.0.height.0 / 200000) as u64, None)
                     ==> res is None""", "C14"),
               C("exactly_two_thirds", """3 * spec_present(self.0.stakes@, (self.0.height.0 / 200000) as u64, cproof@.dom()) == 2 * spec_votes(self.0.stakes@, (self.0.height.0 / 200000) as u64, None)
                     ==> res is None""", "C14", char=True),
               C("carries", "res is Some ==> res->Some_0.state == *self && res->Some_0.cproof == cproof", "C14"),
           ],
           rewrites=[("ANF", "sum", 0, 3, {1: PRESENT_PROOF})],
           injects=[Inject("entry", "let ghost mut done: Set<Ed25519PK> = Set::empty();"),
                    Inject(("after_let", "present_votes"), "proof { lemma_two_thirds(present_votes as int, total_votes as int); }")],
           loops=[Loop(0, binder="it", body_entry="proof { done = done.insert(*k); assert(keyseq(it.seq())[it.index@ as int] == *k); assert(keyseq(it.seq()).contains(*k)); }", invariants=[
               C("enum", "is_enum(cproof@, keyseq(it.seq())) && (forall|i: int| 0 <= i < it.seq().len() ==> *(#[trigger] it.seq()[i]).1 == cproof@[*it.seq()[i].0])", "C14"),
               C("sigs_so_far", "forall|x: Ed25519PK| done.contains(x) ==> sig_ok(x, spec_header_hash(spec_header(self.0)).0@, #[trigger] cproof@[x]@)", "C14"),
               C("hdr", "chain_ok(self.0) && txs_keyed(self.0.transactions@)", "C14"),
               C("rest", "forall|x: Ed25519PK| #[trigger] cproof@.contains_key(x) ==> (done.contains(x) || exists|j: int| it.index@ <= j < keyseq(it.seq()).len() && keyseq(it.seq())[j] == x)", "C14"),
           ])],
           closures=[Closure(0, "k: &Ed25519PK", "(r: u128)", ensures=[C("votes", "r as int == spec_votes(self.0.stakes@, my_epoch, Some(*k))", "C14")])],
        ),
    ],
)
