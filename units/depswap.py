from spec import *
from _contracts import *

# melstructs 0.3.3 `PoolState` (the constant-product arithmetic of Melswap): a DEPENDENCY, not part of /repo. Its text is extracted on
# every run from the registry source that Cargo.lock pins and verified against the very contracts that units `mint` and `subsidy`
# assume for it (units/_contracts.py: ps_*), so A-STRUCTS no longer covers these five methods.
D = DEP_MELSWAP
UNIT = Unit(
    name="depswap", uses="group_core_axioms, num::rational::axiom_ratio_den_pos",
    prelude=["core.rs", "raw.rs", "iter.rs", "crypto.rs", "state_abs.rs", "num.rs", "melswap.rs"],
    lemmas=["sums.rs", "iterlem.rs", "coinsview.rs", "depswap.rs"],
    items=[
        Raw("use num::{rational::Ratio, BigInt, BigRational, BigUint};"),
        Fn(D, "to_canonical", impl="PoolKey", home="C15", implicit_props=("C09", "C15"), **pk_to_canonical(), uses="group_core_axioms, axiom_bytes_lt, axiom_denom_bytes_inj"),
        Fn(D, "new", impl="PoolKey", home="C15", implicit_props=("C09", "C15"), **pk_new_c(), uses="group_core_axioms, axiom_bytes_lt, axiom_denom_bytes_inj"),
        Fn(D, "left", impl="PoolKey", home="C15", implicit_props=("C09",), **pk_side("left")),
        Fn(D, "right", impl="PoolKey", home="C15", implicit_props=("C09",), **pk_side("right")),
        Fn(D, "new_empty", impl="PoolState", home="C15", implicit_props=("C09", "C15"), **ps_new_empty()),
        Fn(D, "swap_many", impl="PoolState", home="C15", implicit_props=("C09", "C15", "C16"), **ps_swap_many(),
           injects=[Inject(("after_let", "exchange_rate"), """let ghost l = self.lefts as int; let ghost rr = self.rights as int;
                        proof { assert(l == sat128(old(self).lefts + lefts) && rr == sat128(old(self).rights + rights)); assert(exchange_rate@ == (num::rational::Frac { n: l, d: rr }));
                            assert(lefts <= l && rights <= rr); lemma_swap_out_lt(lefts as int, l, rr); lemma_swap_out_lt(rights as int, rr, l); }"""),
                    Inject(("after_let", "rights_to_withdraw"), "proof { assert((lefts as int * rr * 995 * 1) / (1 * l * 1 * 1000) == (lefts as int * rr * 995) / (l * 1000)) by (nonlinear_arith); assert(rights_to_withdraw as int == swap_out(lefts as int, l, rr)); }"),
                    Inject(("after_let", "lefts_to_withdraw"), "proof { assert((rights as int * l * 995 * 1) / (1 * rr * 1 * 1000) == (rights as int * l * 995) / (rr * 1000)) by (nonlinear_arith); assert(lefts_to_withdraw as int == swap_out(rights as int, rr, l)); }")]),
        Fn(D, "deposit", impl="PoolState", home="C15", implicit_props=("C09", "C15", "C16"), **ps_deposit(),
           injects=[Inject(("after_let", "tokens"), """proof { let a = self.lefts as int; let b = self.rights as int; assert(a * b > 0) by (nonlinear_arith) requires a > 0, b > 0;
                        let m = mels as int; let t = tokens as int; assert(m * t >= 0) by (nonlinear_arith) requires m >= 0, t >= 0;
                        let q = self.liqs as int; assert(q * q >= 0) by (nonlinear_arith);
                        assert((q * q) * (m * t) >= 0) by (nonlinear_arith) requires q * q >= 0, m * t >= 0;
                        assert(1 * (a * b) > 0);
                        lemma_div_bounds((q * q) * (m * t), 1 * (a * b));
                        assert(((q * q) * (m * t)) / (1 * (a * b)) >= 0) by (nonlinear_arith) requires (q * q) * (m * t) >= 0, 1 * (a * b) > 0, (q * q) * (m * t) < (((q * q) * (m * t)) / (1 * (a * b)) + 1) * (1 * (a * b)); }""")]),
        Fn(D, "withdraw", impl="PoolState", home="C15", implicit_props=("C09", "C15", "C16"), **ps_withdraw(),
           injects=[Inject(("after_let", "rights"), """proof { let t = self.liqs as int; let q = liqs as int; lemma_share_le(self.lefts as int, q, t); lemma_share_le(self.rights as int, q, t);
                        assert(withdrawn_fraction@ == (num::rational::Frac { n: q, d: t }));
                        assert((self.lefts as int * q) / (1 * t) == (self.lefts as int * q) / t); assert((self.rights as int * q) / (1 * t) == (self.rights as int * q) / t); }""")]),
        Fn(D, "implied_price", impl="PoolState", home="C15", implicit_props=("C09", "C15"), **ps_implied_price()),
    ],
)
