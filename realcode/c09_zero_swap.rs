// C09 on the real code: one swap request whose first output is worth 0 makes `seal` panic (Ratio::new(0, 0)).
// Asserts the property (sealing completes); FAILS on the unrepaired tree.
use crate::*;
use melstructs::*;
use melvm::Covenant;
use novasmt::{Database, InMemoryCas};
use std::panic::{catch_unwind, AssertUnwindSafe};

#[test]
fn c09_zero_valued_swap_request_does_not_stop_sealing() {
    let db = Database::new(InMemoryCas::default());
    let mut state = GenesisConfig::std_testnet().realize(&db);
    state.network = NetID::Custom02;
    state.fee_multiplier = 0;
    let x = CoinID { txhash: tmelcrypt::HashVal([1; 32]).into(), index: 0 };
    let cd = |v: u128| CoinData { covhash: Covenant::always_true().hash(), value: CoinValue(v), denom: Denom::Mel, additional_data: vec![].into() };
    state.coins.insert_coin(x, CoinDataHeight { coin_data: cd(1000), height: 0.into() }, state.tip_906());
    let mut state = state.seal(None).next_unsealed();
    let z = Transaction { kind: TxKind::Swap, inputs: vec![x], outputs: vec![cd(0), cd(1000)], fee: CoinValue(0),
        covenants: vec![Covenant::always_true().to_bytes()], data: b"s".to_vec().into(), sigs: vec![] };
    state.apply_tx(&z).unwrap();
    let r = catch_unwind(AssertUnwindSafe(move || state.seal(None).header().height));
    assert!(r.is_ok(), "seal panicked on a zero-valued swap request");
}
