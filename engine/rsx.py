"""Rust source tokenizer + mechanical item extractor + annotation injector.

Everything here works on the token stream of /repo's *current working tree*.
Rules R0-R8 of DESIGN.md section 3.1 are implemented here and nowhere else.
A rule that cannot be applied raises Undecided (never a violation).
"""
import hashlib
import re


class Undecided(Exception):
    """extraction / injection could not be carried out: exit 2, never an alarm"""


# --------------------------------------------------------------------------
# tokenizer
# --------------------------------------------------------------------------
IDENT_RE = re.compile(r"[A-Za-z_][A-Za-z0-9_]*")
NUM_RE = re.compile(r"[0-9][0-9A-Za-z_]*(\.[0-9][0-9A-Za-z_]*)?")
PUNCT3 = ("<<=", ">>=", "...", "..=")
PUNCT2 = ("::", "->", "=>", "==", "!=", "<=", ">=", "&&", "||", "+=", "-=", "*=", "/=", "%=", "^=", "&=", "|=",
          "<<", ">>", "..")


class Tok:
    __slots__ = ("kind", "text", "start", "end")

    def __init__(self, kind, text, start, end):
        self.kind, self.text, self.start, self.end = kind, text, start, end

    def __repr__(self):
        return f"{self.kind}:{self.text!r}@{self.start}"


def tokenize(src, keep_comments=False):
    toks = []
    i, n = 0, len(src)
    while i < n:
        c = src[i]
        if c.isspace():
            i += 1
            continue
        if src.startswith("//", i):
            j = src.find("\n", i)
            j = n if j < 0 else j
            if keep_comments:
                toks.append(Tok("comment", src[i:j], i, j))
            i = j
            continue
        if src.startswith("/*", i):
            depth, j = 1, i + 2
            while j < n and depth:
                if src.startswith("/*", j):
                    depth += 1
                    j += 2
                elif src.startswith("*/", j):
                    depth -= 1
                    j += 2
                else:
                    j += 1
            if keep_comments:
                toks.append(Tok("comment", src[i:j], i, j))
            i = j
            continue
        # raw strings / byte strings
        m = re.match(r"b?r(#*)\"", src[i:i + 40])
        if m:
            hashes = m.group(1)
            close = '"' + hashes
            j = src.find(close, i + m.end())
            if j < 0:
                raise Undecided("unterminated raw string")
            j += len(close)
            toks.append(Tok("str", src[i:j], i, j))
            i = j
            continue
        if c == '"' or (c == "b" and i + 1 < n and src[i + 1] == '"'):
            j = i + (2 if c == "b" else 1)
            while j < n and src[j] != '"':
                j += 2 if src[j] == "\\" else 1
            j += 1
            toks.append(Tok("str", src[i:j], i, j))
            i = j
            continue
        if c == "'" or (c == "b" and i + 1 < n and src[i + 1] == "'"):
            k = i + (1 if c == "b" else 0)
            # char literal or lifetime
            m = re.match(r"'(\\.[^']*|[^'\\])'", src[k:k + 12])
            if m:
                j = k + m.end()
                toks.append(Tok("char", src[i:j], i, j))
                i = j
                continue
            m = IDENT_RE.match(src, k + 1)
            if m:
                toks.append(Tok("lifetime", src[i:m.end()], i, m.end()))
                i = m.end()
                continue
            raise Undecided(f"cannot tokenize quote at {i}")
        m = IDENT_RE.match(src, i)
        if m:
            toks.append(Tok("ident", m.group(0), i, m.end()))
            i = m.end()
            continue
        m = NUM_RE.match(src, i)
        if m:
            # do not swallow `0..n` as a float
            txt = m.group(0)
            if ".." in src[i:m.end() + 1] and "." in txt:
                txt = txt.split(".")[0]
            toks.append(Tok("num", txt, i, i + len(txt)))
            i += len(txt)
            continue
        for p in PUNCT3 + PUNCT2:
            if src.startswith(p, i):
                toks.append(Tok("punct", p, i, i + len(p)))
                i += len(p)
                break
        else:
            toks.append(Tok("punct", c, i, i + 1))
            i += 1
    return toks


OPEN = {"(": ")", "[": "]", "{": "}"}
CLOSE = {")": "(", "]": "[", "}": "{"}


def match_close(toks, i):
    """index of the token closing the bracket opened at toks[i]"""
    assert toks[i].text in OPEN
    depth = 0
    for j in range(i, len(toks)):
        t = toks[j]
        if t.kind == "punct":
            if t.text in OPEN:
                depth += 1
            elif t.text in CLOSE:
                depth -= 1
                if depth == 0:
                    return j
    raise Undecided("unbalanced brackets")


# --------------------------------------------------------------------------
# item location
# --------------------------------------------------------------------------
class Item:
    def __init__(self, path, src, start, end, body_open, name, impl_header, line):
        self.path, self.src = path, src
        self.start, self.end, self.body_open = start, end, body_open
        self.name, self.impl_header, self.line = name, impl_header, line

    @property
    def text(self):
        return self.src[self.start:self.end]

    @property
    def sha256(self):
        return hashlib.sha256(self.text.encode()).hexdigest()


def find_items(path, src, kind, name):
    """all items `kind name` (kind in fn/struct/enum/const/type/static) outside #[cfg(test)] modules and
    outside fn bodies. Returns a list of Item carrying the enclosing impl header (or None)."""
    toks = tokenize(src)
    out = []
    stack = []  # (header_text, is_test_mod)
    i, n = 0, len(toks)
    pending_cfg_test = False
    stmt_start = 0
    while i < n:
        t = toks[i]
        if t.kind == "punct" and t.text == "#" and i + 1 < n and toks[i + 1].text in ("[", "!"):
            k = i + 1 if toks[i + 1].text == "[" else i + 2
            j = match_close(toks, k)
            if re.search(r"cfg\s*\(\s*test\s*\)", src[t.start:toks[j].end]):
                pending_cfg_test = True
            i = j + 1
            continue
        if t.kind == "punct" and t.text in ("(", "["):
            i = match_close(toks, i) + 1
            continue
        if t.kind == "punct" and t.text == "{":
            header = src[toks[stmt_start].start:t.start].strip() if stmt_start < i else ""
            # drop leading attributes from the header text
            header = re.sub(r"^(#\[[^\]]*\]\s*)+", "", header)
            is_test = pending_cfg_test and re.search(r"\bmod\b", header) is not None
            pending_cfg_test = False
            stack.append((header, is_test))
            stmt_start = i + 1
            i += 1
            continue
        if t.kind == "punct" and t.text == "}":
            if stack:
                stack.pop()
            stmt_start = i + 1
            i += 1
            continue
        if t.kind == "punct" and t.text == ";":
            stmt_start = i + 1
            pending_cfg_test = False
            i += 1
            continue
        if (t.kind == "ident" and t.text == kind and i + 1 < n and toks[i + 1].kind == "ident"
                and toks[i + 1].text == name and not any(s[1] for s in stack)):
            encl = stack[-1][0] if stack else None
            if encl is not None and not re.match(r"(pub(\s*\([^)]*\))?\s+)?(unsafe\s+)?(impl|mod|trait)\b", encl):
                i += 1
                continue
            k = stmt_start
            while k < i and toks[k].text == "#" and toks[k + 1].text == "[":
                k = match_close(toks, k + 1) + 1
            start_tok = k
            j = i + 2
            body_open = None
            end_tok = None
            while j < n:
                tj = toks[j]
                if tj.kind == "punct":
                    if tj.text in ("(", "["):
                        j = match_close(toks, j) + 1
                        continue
                    if tj.text == "{":
                        body_open = j
                        end_tok = match_close(toks, j)
                        break
                    if tj.text == ";":
                        end_tok = j
                        break
                j += 1
            if end_tok is None:
                raise Undecided(f"no end for item {name}")
            impl_header = None
            for hdr, _ in reversed(stack):
                if re.match(r"(unsafe\s+)?impl\b", hdr):
                    impl_header = hdr
                    break
            line = src.count("\n", 0, toks[i].start) + 1
            out.append(Item(path, src, toks[start_tok].start, toks[end_tok].end,
                            toks[body_open].start if body_open is not None else None, name, impl_header, line))
            stmt_start = end_tok + 1
            i = end_tok + 1
            continue
        i += 1
    return out


def find_item(path, src, kind, name, impl_match=None):
    items = find_items(path, src, kind, name)
    if impl_match is not None:
        items = [it for it in items if it.impl_header is not None and re.search(impl_match, it.impl_header)]
    if len(items) != 1:
        raise Undecided(f"{path}: expected exactly one `{kind} {name}`"
                        f"{' in impl ~ ' + impl_match if impl_match else ''}, found {len(items)}")
    return items[0]


# --------------------------------------------------------------------------
# token-level rewriting helpers (operate on the text of ONE extracted fn item)
# --------------------------------------------------------------------------
class Edit:
    """collects insertions/deletions against an immutable source string"""

    def __init__(self, src):
        self.src = src
        self.ops = []  # (pos, del_len, insert_text, order)

    def insert(self, pos, text):
        self.ops.append((pos, 0, text, len(self.ops)))

    def delete(self, start, end):
        self.ops.append((start, end - start, "", len(self.ops)))

    def replace(self, start, end, text):
        self.ops.append((start, end - start, text, len(self.ops)))

    def apply(self):
        out, pos = [], 0
        for p, dl, txt, _ in sorted(self.ops, key=lambda o: (o[0], o[3])):
            if p < pos:
                raise Undecided("overlapping edits")
            out.append(self.src[pos:p])
            out.append(txt)
            pos = p + dl
        out.append(self.src[pos:])
        return "".join(out)


LOG_MACROS = {"trace", "debug", "info", "warn", "error"}


def strip_logging(text):
    """R1: delete statements that are a single log::*!(..) / eprintln!(..) / println!(..) call."""
    toks = tokenize(text)
    ed = Edit(text)
    i, n = 0, len(toks)
    removed = 0
    while i < n:
        t = toks[i]
        is_log = (t.kind == "ident" and t.text == "log" and i + 4 < n and toks[i + 1].text == "::"
                  and toks[i + 2].text in LOG_MACROS and toks[i + 3].text == "!" and toks[i + 4].text in OPEN)
        is_print = (t.kind == "ident" and t.text in ("eprintln", "println") and i + 2 < n
                    and toks[i + 1].text == "!" and toks[i + 2].text in OPEN)
        if is_log or is_print:
            prev = toks[i - 1].text if i > 0 else "{"
            op = i + 4 if is_log else i + 2
            cl = match_close(toks, op)
            nxt = toks[cl + 1].text if cl + 1 < n else "}"
            if prev in ("{", "}", ";") and nxt in (";", "}"):
                end = toks[cl + 1].end if nxt == ";" else toks[cl].end
                ed.delete(t.start, end)
                removed += 1
                i = cl + 1
                continue
            if prev == "=>" and nxt in (",", "}"):
                # match arm whose whole body is a log call: replace by unit block
                ed.replace(t.start, toks[cl].end, "{}")
                removed += 1
                i = cl + 1
                continue
            raise Undecided("log macro in expression position")
        i += 1
    return ed.apply(), removed


def fix_visibility(text):
    """R0: pub(crate)/pub(in ..)/pub(super) -> pub"""
    return re.sub(r"\bpub\s*\(\s*(crate|super|in\s+[^)]*)\s*\)", "pub", text)


def _body_open_index(toks):
    """index of the `{` opening the fn body: first `{` at bracket depth 0"""
    j = 0
    while j < len(toks):
        t = toks[j]
        if t.kind == "punct" and t.text in ("(", "["):
            j = match_close(toks, j) + 1
            continue
        if t.kind == "punct" and t.text == "{":
            return j
        j += 1
    raise Undecided("fn has no body")


def loop_positions(toks, lo, hi):
    """indices of loop keywords (for/while/loop) in toks[lo:hi], in order. `for` inside generics (for<'a>) excluded."""
    res = []
    for i in range(lo, hi):
        t = toks[i]
        if t.kind == "ident" and t.text in ("for", "while", "loop"):
            if t.text == "for" and toks[i + 1].text == "<":
                continue
            if t.text == "loop" and toks[i + 1].text != "{":
                continue
            # `impl X for Y` cannot occur inside a body
            res.append(i)
    return res


EXPR_END = {")", "]", "}"}


def closure_positions(toks, lo, hi):
    """indices of the opening `|` / `||` of closures in toks[lo:hi]"""
    res = []
    i = lo
    while i < hi:
        t = toks[i]
        if t.kind == "punct" and t.text in ("|", "||"):
            p = toks[i - 1]
            is_closure = (p.kind == "punct" and p.text in ("(", ",", "=", "{", ";", "=>", "!", "&&", "||", ":")) \
                or (p.kind == "ident" and p.text in ("move", "return", "in", "else"))
            if is_closure:
                res.append(i)
                if t.text == "|":
                    # skip to closing bar
                    j = i + 1
                    while toks[j].text != "|":
                        if toks[j].text in OPEN:
                            j = match_close(toks, j)
                        j += 1
                    i = j
        i += 1
    return res


def loop_body_open(toks, k):
    """index of `{` opening the body of the loop whose keyword is toks[k]"""
    j = k + 1
    while j < len(toks):
        t = toks[j]
        if t.kind == "punct" and t.text in ("(", "["):
            j = match_close(toks, j) + 1
            continue
        if t.kind == "punct" and t.text == "{":
            return j
        j += 1
    raise Undecided("loop without body")


def find_token_seq(toks, pattern_toks, lo, hi):
    """all start indices where the token texts of pattern occur in toks[lo:hi]"""
    pt = [p.text for p in pattern_toks]
    res = []
    for i in range(lo, hi - len(pt) + 1):
        if all(toks[i + k].text == pt[k] for k in range(len(pt))):
            res.append(i)
    return res


def stmt_end(toks, i):
    """index of the `;` terminating the statement that contains toks[i] (relative depth 0)"""
    j = i
    while j < len(toks):
        t = toks[j]
        if t.kind == "punct" and t.text in OPEN:
            j = match_close(toks, j) + 1
            continue
        if t.kind == "punct" and t.text == ";":
            return j
        if t.kind == "punct" and t.text in CLOSE:
            raise Undecided("statement end not found")
        j += 1
    raise Undecided("statement end not found")


def strip_cfg_feature(text, feature="print"):
    """R14: remove every `#[cfg(feature = "<feature>")]` attribute together with the element it guards (enum variant,
    match arm, statement or item) -- the feature is off in the default build that runs."""
    removed = 0
    while True:
        toks = tokenize(text)
        hit = None
        for i, t in enumerate(toks):
            if t.text == "#" and toks[i + 1].text == "[" and toks[i + 2].text == "cfg" and toks[i + 3].text == "(" \
                    and toks[i + 4].text == "feature" and toks[i + 5].text == "=" and toks[i + 6].text == '"%s"' % feature:
                hit = i
                break
        if hit is None:
            return text, removed
        close = match_close(toks, hit + 1)
        j = close + 1
        # the guarded element ends at the first `,` or `;` at depth 0, or at a closing brace of the enclosing block
        while j < len(toks):
            tt = toks[j].text
            if tt in OPEN:
                j = match_close(toks, j) + 1
                # a block-bodied match arm / item may end here without a comma
                if toks[j - 1].text == "}" and j < len(toks) and toks[j].text not in (",", ";", ".", "?"):
                    j -= 1
                    break
                continue
            if tt in (",", ";"):
                break
            if tt in CLOSE:
                j -= 1
                break
            j += 1
        text = text[:toks[hit].start] + text[toks[j].end:]
        removed += 1


# --------------------------------------------------------------------------
# R23 ALPHA: a function that differs from the annotated shape only by a consistent renaming of local variables (and by
# whitespace / comments) is verified in the annotated shape.  Sound because alpha-renaming of locals preserves meaning;
# every test below is conservative: when in doubt the answer is None and the current text is used as it stands.
# --------------------------------------------------------------------------
_SNAKE = re.compile(r"^[a-z_][a-z0-9_]*$")
_RUST_KW = {"as", "break", "const", "continue", "crate", "else", "enum", "extern", "false", "fn", "for", "if", "impl", "in", "let", "loop", "match",
            "mod", "move", "mut", "pub", "ref", "return", "self", "static", "struct", "super", "trait", "true", "type", "unsafe", "use", "where",
            "while", "async", "await", "dyn", "_"}


def alpha_back(ref, cur):
    """{new: old} if `cur` is `ref` with local variables renamed consistently and nothing else changed (token-wise); {} if the
    token streams are identical; None otherwise.  A name may be renamed everywhere, or everywhere inside ONE brace block that
    binds it (a shadowing binding renamed on its own)."""
    try:
        tr, tc = tokenize(ref), tokenize(cur)
    except Undecided:
        return None
    if len(tr) != len(tc):
        return None
    images, bwd = {}, {}
    for i, (a, b) in enumerate(zip(tr, tc)):
        if a.kind != b.kind:
            return None
        if a.kind != "ident":
            if a.text != b.text:
                return None
            continue
        images.setdefault(a.text, {}).setdefault(b.text, []).append(i)
        if bwd.setdefault(b.text, a.text) != a.text:
            return None
    ren = {}
    for o, im in images.items():
        news = [n for n in im if n != o]
        if not news:
            continue
        if len(news) > 1:
            return None
        ren[o] = (news[0], im[news[0]], im.get(o, []))      # new name, renamed positions, positions left alone
    if not ren:
        return {}
    ref_idents = {t.text for t in tr if t.kind == "ident"}
    try:
        bo = _body_open_index(tr)
    except Exception:
        return None
    for old, (new, occ, kept) in ren.items():
        if not _SNAKE.match(old) or not _SNAKE.match(new) or old in _RUST_KW or new in _RUST_KW:
            return None
        if new in ref_idents:               # the new name must be fresh: no capture
            return None
        lo = bo
        if kept:
            # a partial rename: all renamed occurrences inside one brace block that holds no other occurrence of the name
            if occ[0] <= bo:
                return None
            depth, lo = 0, None
            for j in range(occ[0], bo - 1, -1):
                if tr[j].text == "}":
                    depth += 1
                elif tr[j].text == "{":
                    if depth == 0:
                        hi = match_close(tr, j)
                        if occ[-1] < hi:
                            lo = j
                            break
                    else:
                        depth -= 1
            if lo is None or lo == bo:
                return None
            hi = match_close(tr, lo)
            if any(lo < k < hi for k in kept):
                return None
        for i in occ:
            prev = tr[i - 1].text if i > 0 else ""
            nxt = tr[i + 1].text if i + 1 < len(tr) else ""
            if prev in (".", "::", "fn", "'") or nxt in ("(", "::", "!"):
                return None                 # a method / path / function / macro name, not (only) a local
            if i > bo:
                if (prev in ("{", ",") and nxt == ":") or (prev == "{" and nxt in (",", "}")) or (prev == "," and nxt == "}"):
                    return None             # could be a field name of a struct literal / pattern
        # the first occurrence must bind the name: let / for / closure parameter / function parameter
        i = occ[0]
        if i < bo:
            continue                        # in the signature: a parameter
        j = i - 1
        while j > lo and (tr[j].kind == "ident" and tr[j].text not in ("let", "for", "in", "if", "while", "match", "return", "move")
                          or tr[j].text in (",", "(", ")", "&", "::")):
            j -= 1
        if j <= lo or tr[j].text not in ("let", "for", "|"):
            return None
    return {n: o for o, (n, _, _) in ren.items()}
