// Supply accounting of batch application (C01): how the coins term of every denomination moves through create_next_state.
// Hand-written; needs supply.rs and apply.rs.
pub open spec fn kept_val(tx: Transaction, rel: Map<CoinID, CoinDataHeight>, i: int, d: Denom) -> int { if rel.contains_key(cid(tx, i)) { val_of(d)(rel[cid(tx, i)]) } else { 0 } }
/// value of denomination d that the first n outputs of tx bring into the coin set (outputs the relevant-coins map does not keep bring nothing)
pub open spec fn created_val(tx: Transaction, rel: Map<CoinID, CoinDataHeight>, n: int, d: Denom) -> int decreases n { if n <= 0 { 0 } else { created_val(tx, rel, n - 1, d) + kept_val(tx, rel, n - 1, d) } }
pub open spec fn created_tot(txx: Seq<Transaction>, j: int, rel: Map<CoinID, CoinDataHeight>, d: Denom) -> int decreases j {
    if j <= 0 { 0 } else { created_tot(txx, j - 1, rel, d) + created_val(txx[j - 1], rel, txx[j - 1].outputs@.len() as int, d) } }
pub open spec fn in_val(tx: Transaction, rel: Map<CoinID, CoinDataHeight>, k: int, d: Denom) -> int { if rel.contains_key(tx.inputs@[k]) { val_of(d)(rel[tx.inputs@[k]]) } else { 0 } }
/// value of denomination d that the first n inputs of tx take out of the coin set
pub open spec fn spent_val(tx: Transaction, rel: Map<CoinID, CoinDataHeight>, n: int, d: Denom) -> int decreases n { if n <= 0 { 0 } else { spent_val(tx, rel, n - 1, d) + in_val(tx, rel, n - 1, d) } }
pub open spec fn spent_tot(txx: Seq<Transaction>, j: int, rel: Map<CoinID, CoinDataHeight>, d: Denom) -> int decreases j {
    if j <= 0 { 0 } else { spent_tot(txx, j - 1, rel, d) + spent_val(txx[j - 1], rel, txx[j - 1].inputs@.len() as int, d) } }
/// no coin is named twice among all inputs of the batch (what load_relevant_coins establishes)
pub open spec fn inputs_all_distinct(txx: Seq<Transaction>) -> bool {
    forall|t: int, k: int, t2: int, k2: int| 0 <= t < txx.len() && 0 <= k < txx[t].inputs@.len() && 0 <= t2 < txx.len() && 0 <= k2 < txx[t2].inputs@.len() && (t != t2 || k != k2)
        ==> #[trigger] txx[t].inputs@[k] != #[trigger] txx[t2].inputs@[k2]
}
/// what load_relevant_coins establishes of the inputs: each is recorded, and a recorded coin the batch does not create is the prior state's
pub open spec fn inputs_known(c0: IMap<CoinID, CoinDataHeight>, txx: Seq<Transaction>, rel: Map<CoinID, CoinDataHeight>) -> bool {
    forall|t: int, k: int| 0 <= t < txx.len() && 0 <= k < txx[t].inputs@.len() ==> rel.contains_key(#[trigger] txx[t].inputs@[k])
        && (created_by(txx, txx.len() as int, rel, txx[t].inputs@[k]) || (c0.contains_key(txx[t].inputs@[k]) && c0[txx[t].inputs@[k]] == rel[txx[t].inputs@[k]]))
}
pub open spec fn supply_hyp(c0: IMap<CoinID, CoinDataHeight>, txx: Seq<Transaction>, rel: Map<CoinID, CoinDataHeight>) -> bool { enumerable(c0) && inputs_all_distinct(txx) && inputs_known(c0, txx, rel) }
/// writing a coin raises the supply of d by at most the coin's value in d
pub proof fn lemma_supply_insert_le(c: IMap<CoinID, CoinDataHeight>, id: CoinID, v: CoinDataHeight, d: Denom)
    requires enumerable(c) ensures enumerable(c.insert(id, v)), coins_supply(c.insert(id, v), d) <= coins_supply(c, d) + val_of(d)(v)
{ lemma_isum_insert(c, id, v, val_of(d)); }
/// the input about to be removed is still there and carries the recorded data
pub proof fn lemma_input_live(c0: IMap<CoinID, CoinDataHeight>, c1: IMap<CoinID, CoinDataHeight>, cb: IMap<CoinID, CoinDataHeight>, txx: Seq<Transaction>, rel: Map<CoinID, CoinDataHeight>, j: int, n: int)
    requires phase1(c0, c1, txx, txx.len() as int, false, rel, 0), phase2(c1, cb, txx, j, n), inputs_all_distinct(txx), inputs_known(c0, txx, rel), 0 <= j < txx.len(), 0 <= n < txx[j].inputs@.len()
    ensures cb.contains_key(txx[j].inputs@[n]), cb[txx[j].inputs@[n]] == rel[txx[j].inputs@[n]]
{
    let id = txx[j].inputs@[n];
    assert(!spent_by(txx, j, id)) by { if spent_by(txx, j, id) { let (t, k) = choose|t: int, k: int| 0 <= t < j && 0 <= k < txx[t].inputs@.len() && id == #[trigger] txx[t].inputs@[k]; assert(txx[t].inputs@[k] != txx[j].inputs@[n]); } }
    assert(!spent_upto(txx[j], n, id)) by { if spent_upto(txx[j], n, id) { let k = choose|k: int| 0 <= k < n && id == #[trigger] txx[j].inputs@[k]; assert(txx[j].inputs@[k] != txx[j].inputs@[n]); } }
    assert(rel.contains_key(id) && (created_by(txx, txx.len() as int, rel, id) || (c0.contains_key(id) && c0[id] == rel[id])));
    assert(c1.contains_key(id));
    assert(c1[id] == rel[id]) by { if created_by(txx, txx.len() as int, rel, id) { } else { assert(c0.contains_key(id)); assert(c1[id] == c0[id]); } }
    assert(cb.contains_key(id));
    assert(cb[id] == c1[id]);
}
pub proof fn lemma_created_tot_next(txx: Seq<Transaction>, j: int, rel: Map<CoinID, CoinDataHeight>, d: Denom)
    requires 0 <= j < txx.len() ensures created_tot(txx, j + 1, rel, d) == created_tot(txx, j, rel, d) + created_val(txx[j], rel, txx[j].outputs@.len() as int, d) {}
pub proof fn lemma_spent_tot_next(txx: Seq<Transaction>, j: int, rel: Map<CoinID, CoinDataHeight>, d: Denom)
    requires 0 <= j < txx.len() ensures spent_tot(txx, j + 1, rel, d) == spent_tot(txx, j, rel, d) + spent_val(txx[j], rel, txx[j].inputs@.len() as int, d) {}
pub proof fn lemma_created_val_next(tx: Transaction, rel: Map<CoinID, CoinDataHeight>, n: int, d: Denom)
    requires n >= 0 ensures created_val(tx, rel, n + 1, d) == created_val(tx, rel, n, d) + kept_val(tx, rel, n, d), created_val(tx, rel, 0, d) == 0 {}
pub proof fn lemma_spent_val_next(tx: Transaction, rel: Map<CoinID, CoinDataHeight>, n: int, d: Denom)
    requires n >= 0 ensures spent_val(tx, rel, n + 1, d) == spent_val(tx, rel, n, d) + in_val(tx, rel, n, d), spent_val(tx, rel, 0, d) == 0 {}
