#!/usr/bin/env python3
"""saveseed.py <id> <name> <crate> <check-result> <needs...>  -- copy a confirmed seed from /tmp/seed_<id>/SEED to /verif/seeded/<name>/ with meta.json"""
import sys, json, shutil, os, re
pid, name, crate, result = sys.argv[1:5]; needs = " ".join(sys.argv[5:])
src = f"/tmp/seed_{name}/SEED" if os.path.isdir(f"/tmp/seed_{name}/SEED") else f"/tmp/seed_{pid}/SEED"
dst = f"/verif/seeded/{name}"; os.makedirs(dst, exist_ok=True)
for f in ("patch.diff", "demo.rs", "notes.md"): shutil.copy(f"{src}/{f}", f"{dst}/{f}")
log = open(f"/tmp/confirm_{name}.log").read()
meta = dict(property=pid, source="fresh sub-agent given only the property text and a scratch worktree of /repo",
  needs_to_manifest=needs, demo_crate=crate,
  confirmed=dict(how="engine/confirm_seed.sh in the scratch worktree: full suite with the change, demo with the change, demo without it",
     suite_with_change="13 passed / 4 failed in the root crate (the 4 failures of the pinned tree), melvm 63 passed" if "13 passed; 4 failed" in log and "63 passed" in log else "SEE LOG",
     demo_with_change="FAILED" if re.search(r"== demo with change\ntest \S+ \.\.\. FAILED", log) else "SEE LOG",
     demo_without_change="ok" if re.search(r"== demo without change\ntest \S+ \.\.\. ok", log) else "SEE LOG"),
  check=dict(how=f"engine/seedtest.sh seeded/{name} {pid}  (git -C /repo apply, ./check {pid}, git -C /repo checkout -- .)", result=result))
json.dump(meta, open(f"{dst}/meta.json", "w"), indent=1)
print(json.dumps(meta["confirmed"]))
