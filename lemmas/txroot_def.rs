// C07: the transactions root: before TIP-908 the root of the sparse tree mapping each transaction's signature-free hash to the transaction;
// from TIP-908 on the root of the dense Merkle tree over the sorted leaves (hash ++ hash of the encoding), named here by spec_dense_txs (A-DET on
// tip908_transactions, whose leaf construction / sorting is not under contract)
pub uninterp spec fn spec_dense_txs(m: Map<TxHash, Transaction>) -> HashVal;
pub open spec fn spec_root_txs(m: Map<TxHash, Transaction>, tip908: bool) -> HashVal { if tip908 { spec_dense_txs(m) } else { spec_root_smt(m) } }
