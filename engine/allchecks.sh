#!/bin/sh
# dev helper: run every claimed property's quick check (4 at a time), print one line each
cd /verif
for p in $(python3 -c "import json; print(' '.join(c['property_id'] for c in json.load(open('MANIFEST.json'))['checks']))"); do echo $p; done | xargs -P 4 -I{} sh -c './check {} 2>&1 | grep -E "^(OK|VIOLATION|UNDECIDED)" | cut -c1-200'
