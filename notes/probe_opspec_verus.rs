use vstd::prelude::*;
use vstd::std_specs::ops::*;
verus! {

#[verifier::external_body]
pub struct BigInt { _p: u8 }
impl BigInt {
    pub uninterp spec fn view(&self) -> int;
    #[verifier::external_body]
    pub fn from(x: u128) -> (r: BigInt) ensures r@ == x as int { unimplemented!() }
    #[verifier::external_body]
    pub fn try_into_u128(&self) -> (r: Option<u128>)
        ensures (0 <= self@ < 0x1_0000_0000_0000_0000_0000_0000_0000_0000) ==> r == Some(self@ as u128),
                !(0 <= self@ < 0x1_0000_0000_0000_0000_0000_0000_0000_0000) ==> r is None
    { unimplemented!() }
}

impl MulSpecImpl<BigInt> for BigInt {
    open spec fn obeys_mul_spec() -> bool { true }
    open spec fn mul_req(self, rhs: BigInt) -> bool { true }
    uninterp spec fn mul_spec(self, rhs: BigInt) -> BigInt;
}
impl core::ops::Mul<BigInt> for BigInt {
    type Output = BigInt;
    #[verifier::external_body]
    fn mul(self, rhs: BigInt) -> (r: BigInt) { unimplemented!() }
}
pub broadcast axiom fn mul_view(a: BigInt, b: BigInt)
    ensures #[trigger] MulSpec::mul_spec(a, b)@ == a@ * b@;

impl DivSpecImpl<BigInt> for BigInt {
    open spec fn obeys_div_spec() -> bool { true }
    open spec fn div_req(self, rhs: BigInt) -> bool { rhs@ != 0 }
    uninterp spec fn div_spec(self, rhs: BigInt) -> BigInt;
}
impl core::ops::Div<BigInt> for BigInt {
    type Output = BigInt;
    #[verifier::external_body]
    fn div(self, rhs: BigInt) -> (r: BigInt) { unimplemented!() }
}

fn f(x: u128, y: u128) -> (r: u128)
    ensures (x as int) * (y as int) < 0x1_0000_0000_0000_0000_0000_0000_0000_0000 ==> r == x * y
{
    broadcast use mul_view;
    let p = BigInt::from(x) * BigInt::from(y);
    p.try_into_u128().unwrap_or(u128::MAX)
}
fn g(x: u128, y: u128) -> BigInt
{
    BigInt::from(x) / BigInt::from(y)
}
}
fn main() {}
