// the DOSC inflation table as a recursive spec function (shared by the dosc and mint units)
/// A-MEMO: micro-ERG per DOSC at a height: t(0) = 10^6, t(h+1) = max(t(h)+1, t(h) + t(h)/2000000)
pub open spec fn spec_microergs(h: nat) -> nat decreases h {
    if h == 0 { 1_000_000 } else { let l = spec_microergs((h - 1) as nat); if l + 1 >= l + l / 2_000_000 { l + 1 } else { l + l / 2_000_000 } }
}
pub proof fn lemma_microergs_pos(h: nat) ensures spec_microergs(h) >= 1_000_000 decreases h { if h > 0 { lemma_microergs_pos((h - 1) as nat); } }
/// C09 envelope of the memo table: the inflator of height h fits in u128 (and h + 1 fits in usize)
pub open spec fn microergs_fit(h: nat) -> bool { spec_microergs(h) <= u128::MAX && h < 0x7fff_ffff_ffff_ffff }
pub proof fn lemma_microergs_mono(a: nat, b: nat) requires a <= b ensures spec_microergs(a) <= spec_microergs(b) decreases b - a { if a < b { lemma_microergs_mono(a, (b - 1) as nat); } }
pub proof fn lemma_microergs_mono_all(b: nat) ensures forall|a: nat| a <= b ==> #[trigger] spec_microergs(a) <= spec_microergs(b) { assert forall|a: nat| a <= b implies #[trigger] spec_microergs(a) <= spec_microergs(b) by { lemma_microergs_mono(a, b); } }
