#!/bin/sh
# usage: mut2.sh <file-in-repo> <python-regex-old> <new> <prop...>  -- apply a one-off mutation in a scratch worktree (/tmp/mutw), run the checks
# against it (VERIF_REPO), restore the worktree.  /repo itself is not touched.
[ -d /tmp/mutw ] || git -C /repo worktree add -q --detach /tmp/mutw HEAD
git -C /tmp/mutw checkout -q --detach $(git -C /repo rev-parse HEAD); git -C /tmp/mutw checkout -q -- .
f=$1; old=$2; new=$3; shift 3
python3 - "$f" "$old" "$new" <<'P'
import sys,re
f,old,new=sys.argv[1:4]
s=open('/tmp/mutw/'+f).read()
n=len(re.findall(old,s))
if n!=1: print("MUTATION ANCHOR COUNT",n); sys.exit(3)
open('/tmp/mutw/'+f,'w').write(re.sub(old,lambda m:new,s))
P
[ $? -eq 0 ] || exit 3
for p in "$@"; do VERIF_REPO=/tmp/mutw /verif/check $p 2>&1 | grep -E "^(VIOLATION|OK|UNDECIDED|KNOWN)" | cut -c1-220; done
git -C /tmp/mutw checkout -q -- .
