from spec import *
from _contracts import *

G = "src/genesis.rs"
S = "src/state.rs"
SM = "src/smtmapping.rs"
C_ = "src/state/coins.rs"
UNIT = Unit(
    name="genesis", uses="group_core_axioms, axiom_zero_hash, axiom_txhash_nonzero",
    prelude=["core.rs", "raw.rs", "iter.rs", "crypto.rs", "state_abs.rs"],
    lemmas=["sums.rs", "iterlem.rs", "coinsview.rs", "tips.rs", "apply.rs", "header.rs", "txroot_opaque.rs", "seal_opaque.rs", "stateinv.rs", "chaininv.rs"],
    items=[
        TypeItem(S, "struct", "UnsealedState"),
        TypeItem(G, "struct", "GenesisConfig"),
        Fn(SM, "new", impl="SmtMapping", mode="assume", wrap=SMT_WRAP, **smt_new()),
        Fn(C_, "new", impl="CoinMapping", mode="assume", **cm_new_abs()),
        Fn(C_, "insert_coin", impl="CoinMapping", mode="assume", **cm_insert_coin()),
        Fn("lib/tip911-stakeset/src/lib.rs", "new", impl="StakeSet", mode="assume", sig_subst=[("impl Iterator<Item = (TxHash, StakeDoc)>", "Vec<(TxHash, StakeDoc)>")], **ss_new()),
        Fn(S, "tip_906", impl="UnsealedState", mode="assume", **st_tip(830000)),
        Fn(G, "realize", impl="GenesisConfig", home="C07", implicit_props=("C09", "C07", "C20", "C16"),
           requires=[C("store", "forall|z: [u8; 32]| z@ == Seq::new(32, |i: int| 0u8) ==> #[trigger] novasmt_db::db_has(*db, z)", note="every content-addressed store holds the empty tree")],
           ensures=[C("fields", """res.network == self.network && res.height.0 == 0 && res.history@ == Map::<BlockHeight, Header>::empty() && res.transactions@ == Map::<TxHash, Transaction>::empty()
                        && res.pools@ == Map::<PoolKey, PoolState>::empty() && res.fee_pool == self.init_fee_pool && res.fee_multiplier == self.init_fee_multiplier && res.tips.0 == 0 && res.dosc_speed == 1_000_000
                        && (forall|h: TxHash| #[trigger] res.stakes@.contains_key(h) <==> self.stakes@.contains_key(h)) && (forall|h: TxHash| res.stakes@.contains_key(h) ==> #[trigger] res.stakes@[h] == self.stakes@[h])""", "C07", "C13"),
                    C("coin", """res.coins@.coins == IMap::<CoinID, CoinDataHeight>::empty().insert(CoinID { txhash: TxHash(spec_zero_hash()), index: 0 }, CoinDataHeight { height: BlockHeight(0), coin_data: self.init_coindata })""", "C01", "C02"),
                    C("no_markers", "markers_ok(res.coins@.coins)", "C19", note="base case of the marker invariant: the genesis coin sits under the all-zero transaction hash, which is no marker id (A-HASH)"),
                    C("invariants", "state_inv(res) && chain_ok(res) && pools_ok(res.pools@) && builtins_if_present(res)", "C20", "C16", "C07",
                      note="base case of the state invariants that every transition under contract preserves"),
                    C("hinv", "hinv(res)", "C09", "C18", note="base case of the chain invariants: empty history, speed 10^6, the one genesis coin at height 0 under the all-zero hash (no reward pseudo-id: A-HASH)")],
           rewrites=[("SUB", "let mut new_state = UnsealedState {", "let __bv = btree_into_vec(self.stakes); let ghost bvs = __bv@; let ghost m0 = self.stakes@; let mut new_state = UnsealedState {"),
                     ("SUB", "StakeSet::new(self.stakes.into_iter())", "StakeSet::new(__bv)")],
           injects=[Inject(("before", "new_state.coins.insert_coin("), "proof { lemma_counts_ok_empty(); assert(new_state.coins@ == (CoinsView { coins: IMap::<CoinID, CoinDataHeight>::empty(), counts: IMap::<Address, nat>::empty() })); }"),
                    Inject("before_tail", """proof { broadcast use axiom_marker_nonzero;
                        assert forall|h: TxHash| !new_state.coins@.coins.contains_key(#[trigger] spec_marker(h)) by { assert(spec_fdp_hash(h) != spec_zero_hash()); assert(spec_marker(h) != (CoinID { txhash: TxHash(spec_zero_hash()), index: 0 })); } }"""),
                    Inject("before_tail", """proof { broadcast use axiom_reward_nonzero; assert forall|hh: BlockHeight| !new_state.coins@.coins.contains_key(#[trigger] spec_proposer_reward(hh)) by { assert(spec_reward_hash(hh) != spec_zero_hash()); } }"""),
                    Inject("before_tail", """proof { let z = CoinID { txhash: TxHash(spec_zero_hash()), index: 0 };
               assert(origin_ok(new_state.coins@.coins)) by { assert forall|tx: Transaction, i: int| 0 <= i < tx.outputs@.len() && i <= 255 && new_state.coins@.coins.contains_key(#[trigger] cid(tx, i))
                   implies new_state.coins@.coins[cid(tx, i)].coin_data.covhash == tx.outputs@[i].covhash by { assert(cid(tx, i) == z); assert(spec_txhash(tx).0 == spec_zero_hash()); } }
               assert forall|h: TxHash| (#[trigger] new_state.stakes@.contains_key(h) <==> m0.contains_key(h)) && (new_state.stakes@.contains_key(h) ==> new_state.stakes@[h] == m0[h]) by {
                   lemma_map_of_pairs(bvs, h);
                   if m0.contains_key(h) { let i = choose|i: int| 0 <= i < bvs.len() && (#[trigger] bvs[i]).0 == h; }
                   if new_state.stakes@.contains_key(h) { let i = choose|i: int| 0 <= i < bvs.len() && (#[trigger] bvs[i]).0 == h; assert(m0.contains_key(bvs[i].0)); } } }""")]),
    ],
)
