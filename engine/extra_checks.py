"""Non-Verus obligation providers: Kani/CBMC harnesses on the real compiled crate (thorough tier)."""
import concurrent.futures as cf
import os
import re
import shutil
import subprocess
import tempfile
import time

VERIF = os.path.dirname(os.path.dirname(os.path.abspath(__file__)))
REPO = os.environ.get("VERIF_REPO", "/repo")

KANI = {
    "C12": dict(crate="lib/melvm", file="kani/melvm_codec.rs", mod="verif_codec",
                harnesses=["dec_enc_00_2f", "dec_enc_30_6f", "dec_enc_70_af", "dec_enc_b0_ef", "dec_enc_f0", "dec_enc_f1", "dec_enc_f2", "dec_enc_f3_ff",
                           "enc_dec_noarg", "enc_dec_noarg2", "enc_dec_args", "enc_dec_args2", "enc_dec_push_edges", "enc_dec_pushb_edges", "enc_dec_pushi", "enc_dec_pushic", "enc_dec_pushb"],
                text={"dec": "K1: for every byte string of <= 35 bytes with this first-byte range: decode either fails or yields an instruction whose encoding is exactly the consumed prefix; never panics",
                      "enc": "K2: encode(op) followed by two arbitrary bytes decodes back to op, consuming exactly the encoding"},
                sources=["lib/melvm/src/opcode.rs", "lib/melvm/Cargo.toml", "Cargo.lock"], slow=["enc_dec_pushi", "enc_dec_pushic", "enc_dec_pushb"],
                timeout=3600, quick_timeout=900),   # quick tier: the fourteen harnesses it runs take <= 330 s each on the pinned tree; an edit that makes CBMC
                                                    # run away is undecided after 15 min each (the stored real-code witnesses then run), never an alarm
}


def run(prop, tier):
    if prop not in KANI:
        return []
    cfg = KANI[prop]
    out = {"unit": "kani:" + cfg["mod"], "status": "ok", "reasons": [], "obligations": [], "findings": [], "canaries": {}, "functions": [],
           "assumed_functions": [], "scan": {}, "smt_ms": 0, "cmds": [], "files": [], "bounded": [], "not_covered": []}
    # The Kani runs are slow (17 harnesses, up to 30 CPU-minutes each).  A committed record (kani/discharged.json) names the exact source text
    # (sha256 of the function-bearing files + harness file) for which every harness was discharged by a thorough run.  The quick tier re-runs the
    # harnesses only when that text differs (i.e. when somebody touched the encoder/decoder); for identical text it reports them as discharged
    # from the record -- the same CBMC problem has the same answer.
    import hashlib, json as _json
    hsh = hashlib.sha256()
    for rel in cfg.get("sources", []):
        try:
            hsh.update(open(os.path.join(REPO, rel), "rb").read())
        except OSError:
            hsh.update(b"<missing " + rel.encode() + b">")
    hsh.update(open(os.path.join(VERIF, cfg["file"]), "rb").read())
    digest = hsh.hexdigest()
    rec_path = os.path.join(VERIF, "kani", "discharged.json")
    rec = _json.load(open(rec_path)) if os.path.exists(rec_path) else {}
    if tier != "thorough" and rec.get(prop, {}).get("sha256") == digest and set(rec[prop]["harnesses"]) == set(cfg["harnesses"]):
        for h in cfg["harnesses"]:
            out["obligations"].append({"id": f"kani/{cfg['mod']}::{h}", "unit": out["unit"], "fn": f"{cfg['crate']}/src/opcode.rs::OpCode::decode+encode", "clause": h,
                                       "kind": "kani-harness", "text": cfg["text"]["dec" if h.startswith("dec") else "enc"], "props": [prop],
                                       "verdict": "discharged", "backend": f"kani/cbmc (recorded: identical source text sha256={digest[:16]}, discharged by the thorough run of {rec[prop].get('at', '?')})",
                                       "characterisation": False, "detail": [], "wall_s": 0.0})
        out["not_covered"].append("the Kani harnesses were not re-run in this quick run: the encoder/decoder source and the harness file are byte-identical to the text they were discharged for (kani/discharged.json); any edit of those files makes the quick tier run them")
        return [out]
    if tier != "thorough":
        # The per-instruction codec is decided by Verus since OpCode::{decode, encode} are proved against the DEFINED wire format (unit codec:
        # decode#k, encode#k, lemma_k1, lemma_k2).  Kani/CBMC on the compiled crate is the second, bit-precise back end for the same facts; after
        # an edit of the encoder/decoder it takes 5-35 minutes per harness, so it is left to the thorough tier and nothing is claimed from it here.
        out["not_covered"].append("the Kani harnesses (second back end for K1/K2, on the compiled crate) were not re-run in this quick run: the encoder/decoder source differs "
                                  "from the text they were discharged for (kani/discharged.json); the Verus obligations decode#k / encode#k / lemma_k1 / lemma_k2 decide the "
                                  "per-instruction codec in this tier, the thorough tier re-runs all 17 harnesses")
        return [out]
    d = tempfile.mkdtemp(prefix="kani.")
    try:
        subprocess.run(["rsync", "-a", "--exclude", "target", "--exclude", ".git", REPO + "/", d + "/"], check=True)
        crate = os.path.join(d, cfg["crate"])
        shutil.copy(os.path.join(VERIF, cfg["file"]), os.path.join(crate, "src", cfg["mod"] + ".rs"))
        with open(os.path.join(crate, "src", "lib.rs"), "a") as f:
            f.write(f"\n#[cfg(kani)]\nmod {cfg['mod']};\n")
        env = dict(os.environ, CARGO_NET_OFFLINE="true")
        # build once (first harness compiles the crate), then the rest in parallel
        def one(h):
            t0 = time.time()
            cmd = ["cargo", "kani", "-Z", "function-contracts", "-Z", "stubbing", "--harness", h]
            try:
                p = subprocess.run(cmd, cwd=crate, env=env, capture_output=True, text=True, timeout=cfg["timeout"] if tier == "thorough" else cfg["quick_timeout"])
                txt = p.stdout + p.stderr
            except subprocess.TimeoutExpired:
                return h, "undecided", "timeout", time.time() - t0, " ".join(cmd)
            if "VERIFICATION:- SUCCESSFUL" in txt:
                return h, "discharged", re.findall(r"Verification Time: [0-9.]+s", txt)[-1:] , time.time() - t0, " ".join(cmd)
            if "VERIFICATION:- FAILED" in txt:
                fails = re.findall(r"Check \d+: .*?\n\t - Status: FAILURE\n\t - Description: \"(.*?)\"", txt)
                if not fails or "out of memory" in txt or "CBMC failed" in txt:
                    # resource exhaustion / tool failure: no failed check was reported -> undecided, never an alarm
                    return h, "undecided", "CBMC did not complete (no failed check reported): " + txt[-300:], time.time() - t0, " ".join(cmd)
                return h, "failed", fails[:5], time.time() - t0, " ".join(cmd)
            return h, "undecided", txt[-600:], time.time() - t0, " ".join(cmd)
        todo = list(cfg["harnesses"])
        skipped = []
        if tier != "thorough":
            # quick tier after an edit of the encoder/decoder: the three harnesses over symbolic 256-bit / 33-byte literals take 15-35 minutes each;
            # they are left to the thorough tier (reported undecided here), the other fourteen (up to ~5 min each) run now
            skipped = [h for h in todo if h in cfg.get("slow", [])]
            todo = [h for h in todo if h not in skipped]
        first = one(todo[0])
        res = [first]
        with cf.ThreadPoolExecutor(max_workers=3) as ex:   # each CBMC run peaks at 10-15 GB
            res += list(ex.map(one, todo[1:]))
        res += [(h, "undecided", "not re-run in the quick tier (slow harness): run the thorough tier", 0.0, "-") for h in skipped]
        for h, verdict, detail, wall, cmd in res:
            out["cmds"].append(cmd)
            out["obligations"].append({"id": f"kani/{cfg['mod']}::{h}", "unit": out["unit"], "fn": f"{cfg['crate']}/src/opcode.rs::OpCode::decode+encode", "clause": h,
                                       "kind": "kani-harness", "text": cfg["text"]["dec" if h.startswith("dec") else "enc"], "props": [prop],
                                       "verdict": verdict, "backend": "kani/cbmc", "characterisation": False, "detail": [str(detail)], "wall_s": round(wall, 1)})
            if verdict == "undecided":
                out["status"] = "undecided"
                out["reasons"].append(f"kani harness {h}: {str(detail)[:200]}")
        if out["status"] == "ok" and all(o["verdict"] == "discharged" for o in out["obligations"]) and os.environ.get("VERIF_REPO", "/repo") == "/repo":
            rec[prop] = {"sha256": digest, "harnesses": cfg["harnesses"], "at": time.strftime("%Y-%m-%d"), "sources": cfg.get("sources", []),
                         "wall_s": {o["clause"]: o["wall_s"] for o in out["obligations"]}}
            _json.dump(rec, open(rec_path, "w"), indent=1, sort_keys=True)
    finally:
        shutil.rmtree(d, ignore_errors=True)
    return [out]
