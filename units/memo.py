from spec import *
from _contracts import *

M = "src/state/melmint.rs"
# microergs_per_dosc memoises the DOSC inflation table in a function-local `static Lazy<RwLock<Vec<u128>>>`.  Verus has no statics
# with interior mutability, so the table is made a parameter (declared substitutions below): the read guard and the write guard both
# become the `&mut Vec<u128>` the lock protects, and `Option::unwrap_or_else(|| BODY)` becomes the equivalent `match` (the closure
# mutates the captured table; it runs exactly when the option is None).  What is proved is the lock invariant argument: IF the
# table satisfies table_ok when the function gets it, the result is the specified table value and the table satisfies table_ok
# afterwards.  The empty table of Lazy::new(Default::default) satisfies it, every writer goes through this function, hence
# always (A-LOCK: parking_lot's RwLock gives the writer exclusive access; a reader sees a table some writer left).  The gap between
# dropping the read guard and taking the write guard is covered because the write branch re-tests `tab.len()`.
UNIT = Unit(
    name="memo", uses=None,
    prelude=["core.rs"],
    lemmas=["microergs.rs"],
    items=[
        Raw("""/// `tab.get(i).copied()` on the table behind the read guard (declared substitution)
#[verifier::external_body] pub fn memo_get(t: &Vec<u128>, i: usize) -> (r: Option<u128>) ensures r == (if i < t@.len() { Some(t@[i as int]) } else { None::<u128> }) { t.get(i).copied() }
/// the lock invariant of INFLATOR_TABLE: entry i is the inflator of height i
pub open spec fn table_ok(t: Seq<u128>) -> bool { forall|i: int| 0 <= i < t.len() ==> #[trigger] t[i] as nat == spec_microergs(i as nat) }"""),
        Fn(M, "microergs_per_dosc", home="C18", implicit_props=("C09", "C18"),
           sig_subst=[("(height: BlockHeight)", "(height: BlockHeight, INFLATOR_TABLE: &mut Vec<u128>)")],
           rewrites=[("SUB", "static INFLATOR_TABLE: Lazy<RwLock<Vec<u128>>> = Lazy::new(Default::default);", ""),
                     ("SUB", "INFLATOR_TABLE.read().get(height.0 as usize).copied()", "memo_get(INFLATOR_TABLE, height.0 as usize)"),
                     ("SUB", "lol.unwrap_or_else(|| {", "match lol { Some(__v) => __v, None => {"),
                     ("SUBRE", r"\}\)\s*\}\s*$", "} } }"),
                     ("SUB", "let mut tab = INFLATOR_TABLE.write();", "let tab = INFLATOR_TABLE;")],
           requires=[C("lock_inv", "table_ok(old(INFLATOR_TABLE)@)", note="A-LOCK: the invariant of the table behind the RwLock (holds of the empty table; re-established below)"),
                     C("fits", "microergs_fit(height.0 as nat)", note="C09 envelope: the inflator of this height fits in u128 (it grows by a factor 1 + 1/2000000 per block: overflow near height 1.5e8) and height + 1 fits in usize")],
           ensures=[C("memo", "res as nat == spec_microergs(height.0 as nat)", "C18", "C01"),
                    C("lock_inv_kept", "table_ok(final(INFLATOR_TABLE)@)", "C18")],
           injects=[Inject("entry", "proof { lemma_microergs_mono_all(height.0 as nat); }")],
           loops=[Loop(0, decreases="height.0 + 1 - tab@.len()",
                       body_entry="let ghost n0 = tab@.len(); proof { lemma_microergs_mono(n0 as nat, height.0 as nat); assert(tab@[n0 - 1] as nat == spec_microergs((n0 - 1) as nat)); }",
                       invariants=[C("tab", "table_ok(tab@) && tab@.len() > 0 && height.0 < 0x7fff_ffff_ffff_ffff && spec_microergs(height.0 as nat) <= u128::MAX", "C18")])]),
    ],
)
